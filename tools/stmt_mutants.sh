#!/bin/bash
# MEASUREMENT (not a check), for a `vp run --with-repo` snapshot: effect statements (calls whose value is not bound) at the
# top level of the live Anchor instruction handlers are deleted in turn (a tail expression is replaced by `Ok(())`) in the
# snapshot's copy of the repository; the quick checks the file is relevant to are run until one reports.
# The statements come from tools/stmt_list.py; STMT_FILTER (a regex on "file<TAB>first line text") narrows the list.
set -u
R="${VP_RUN_REPO:-/repo}"
if [ "$R" != "/repo" ]; then
  sed -i "s#/repo/#$R/#g" harness/Cargo.toml check
  export VERIF_REPO="$R"
fi
export VERIF_SPECS="$PWD/work/specs.txt"
./check --setup > setup.log 2>&1; tail -1 setup.log
D=$R/programs/whirlpool/src/instructions
: > stmt_mutants.tsv
python3 tools/stmt_list.py "$R" | grep -v -P "\tctx: " | grep -v -P "^(v2/)?(increase|decrease)_liquidity.rs" | grep -E "${STMT_FILTER:-^(v2/)?(collect_|swap|two_hop|update_fees|lock_position|transfer_locked|close_|open_bundled|delete_position|adaptive_fee/set_adaptive_fee_constants|set_reward_emissions|reset_position)}" > stmt_list.txt
wc -l stmt_list.txt
while IFS=$'\t' read -r f a b txt; do
  case $f in
    *two_hop*) cs="C17 C14 C03";;
    *swap*) cs="C14 C03 C16";;
    *lock*|*close_*|*open_*|*reset_position*|*bundle*) cs="C18 C04 C13";;
    *adaptive*|*set_*|*initialize_*|*token_badge*) cs="C19 C14 C04 C13 C11";;
    *reward*|*collect*|*update_fees*) cs="C11 C07 C06 C01";;
    *) cs="C04 C15 C18 C19";;
  esac
  last=$(sed -n "${b}p" $D/$f)
  if echo "$last" | grep -q ';\s*$'; then
    sed -i "${a},${b}d" $D/$f
    sed -i "${a}i\\    // mutant: statement removed" $D/$f
  else
    sed -i "${a},${b}d" $D/$f
    sed -i "${a}i\\    Ok(())" $D/$f
  fi
  res="MISSED"
  for c in $cs; do
    out=$(./check $c --tier quick 2>&1)
    if echo "$out" | grep -q "error\[E\|could not compile"; then res="does not compile"; break
    elif echo "$out" | grep -q "^VIOLATION.*no-failing-input-found"; then res="$c table/proof-only: $(echo "$out" | grep -B3 '^VIOLATION' | grep -m1 -E 'proof|extract|corr' | cut -c1-120)"; break
    elif echo "$out" | grep -q "^VIOLATION"; then res="$c execution: $(echo "$out" | grep -m1 -A1 '^VIOLATION' | tail -1 | cut -c1-130)"; break
    elif ! echo "$out" | grep -q "^OK"; then res="$c other: $(echo "$out" | tail -1 | cut -c1-100)"; break; fi
  done
  echo -e "$f:$a-$b\t$txt\t$res" | tee -a stmt_mutants.tsv
  git -C $R checkout -- programs/whirlpool/src/instructions/$f
done < stmt_list.txt
echo done
