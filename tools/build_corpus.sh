#!/bin/bash
# run inside a `vp run --with-repo` snapshot: for every kept seeded change, apply it to the snapshot's own copy of the
# repository, run the first check that catches it, and collect the (shrunk) failing history / op line of its first
# replay into corpus_new/<family>.ops.  The result is reviewed and copied into /verif/corpus by hand.
set -u
R="${VP_RUN_REPO:-/repo}"
if [ "$R" != "/repo" ]; then
  sed -i "s#/repo/#$R/#g" harness/Cargo.toml check
  export VERIF_REPO="$R"
fi
export VERIF_SPECS="$PWD/work/specs.txt"
./check --setup > setup.log 2>&1; tail -1 setup.log
mkdir -p corpus_new
for d in seeded/*/; do
  sid=$(basename $d)
  [ -f $d/patch.diff ] || continue
  id=$(python3 - "$d" <<'PY'
import json,sys,ast
try:
    m=json.load(open(sys.argv[1]+"meta.json"))
    c=m.get("caught_by_checks")
    if isinstance(c,str): c=ast.literal_eval(c)
    print(c[0] if c else "")
except Exception:
    print("")
PY
)
  [ -n "$id" ] || id=${sid:0:3}
  git -C $R apply $PWD/$d/patch.diff 2>/dev/null || { echo "== $sid: patch does not apply"; continue; }
  rm -f work/replay/${id}_0.json
  ./check $id --tier quick > corpus_$sid.log 2>&1
  python3 - "$sid" "$id" <<'PY'
import json,sys,os
sid,cid=sys.argv[1],sys.argv[2]
p=f"work/replay/{cid}_0.json"
if not os.path.exists(p):
    print(f"== {sid}: no replay from {cid}"); sys.exit()
r=json.load(open(p)); d=r.get("detail",{})
fam=d.get("family")
if not fam:
    print(f"== {sid}: {cid} {r.get('kind')} without input ({str(r.get('what'))[:80]})"); sys.exit()
lines=d.get("prefix") or ([d["op"]] if d.get("op") else [])
with open(f"corpus_new/{fam}.ops","a") as f:
    f.write(f"# {sid} ({cid}): {str(r.get('what'))[:140]}\n")
    for l in lines: f.write(l+"\n")
print(f"== {sid}: {cid} {fam} {len(lines)} lines ({d.get('shrunk','')})")
PY
  git -C $R checkout -- . ; git -C $R clean -fdq -e target 2>/dev/null
done
wc -l corpus_new/*
