#!/bin/bash
# usage: tools/try_seed.sh <seed-dir-name> <family> <count> [seed]   -- apply a seeded patch, run one family, revert
S=$1; F=$2; N=$3; SEED=${4:-1}
cd /verif
git -C /repo apply /verif/seeded/$S/patch.diff || exit 2
( cd harness && cargo build --release --offline --features verif 2>&1 | grep -E "^error" -A5 )
mkdir -p work/try && harness/target/release/wph gen $F $SEED $N work/try >/dev/null
lean/.lake/build/bin/wpmodel < work/try/$F.ops > work/try/$F.model
echo "$S $F: diffs=$(diff work/try/$F.impl work/try/$F.model | grep -c '^<') oracle_viol=$(wc -l < work/try/$F.viol)"
head -c 600 work/try/$F.viol | head -3
git -C /repo checkout -- .
