#!/bin/bash
# tools/try_seed.sh <patch.diff> <Cxx> [<Cyy> ...]
# apply a seeded change to /repo, run the quick checks named, print their verdict lines, undo the change.
# (evidence files are restored from git afterwards: a run against a patched tree is not evidence)
set -u
patch="$1"; shift
cd /verif
if ! git -C /repo diff --quiet; then echo "refusing: /repo has uncommitted changes"; exit 2; fi
git -C /repo apply "$patch" || { echo "patch does not apply"; exit 2; }
trap 'git -C /repo checkout -- . ; git -C /verif checkout -- evidence 2>/dev/null; python3 /verif/tools/extract.py >/dev/null' EXIT
for p in "$@"; do
  t0=$(date +%s)
  out=$(./check "$p" --tier quick 2>&1); rc=$?
  t1=$(date +%s)
  echo "== $p rc=$rc ($((t1-t0))s)"
  echo "$out" | grep -E "^VIOLATION|^KNOWN-FINDING|^OK|Traceback|Error" | head -8
  for f in $(echo "$out" | grep -oE "replay=[^ ]+" | cut -d= -f2 | head -3); do
    python3 -c "import json,sys;d=json.load(open('$f'));print('   ',d.get('kind'),'|',str(d.get('what'))[:260].replace(chr(10),' '))" 2>/dev/null
  done
done
